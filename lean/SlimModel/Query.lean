import SlimModel.Build
/-
  SlimModel.Query — the lookup algorithms of trie/slimtrie_query.go, written once over a `View`.

  A `View` is what the query code can observe of a trie: `getNode` (decoded into a `Node`
  record), the leaf bytes, and three flags.  L1 (`Trie1.view`) reads the record array; L2
  (`SlimModel.Slim`) decodes the same records out of the bitmaps of the `Slim` message.  Every
  query theorem proved for a view transports along `∀ id, v₂.node id = v₁.node id`.

  Control flow mirrors `GetID`, `searchID`, `leftMost`, `rightMost`, `Get`, `RangeGet`, `Search`
  one to one.  Positions are half-bytes (`i` here is the Go `i` / 4, `l` is `8*len(key)` / 4).
  Go panics are explicit `Err.panic`; loops take fuel (`nodeCnt` suffices: child ids increase).
-/

structure View where
  /-- `st.inner.NodeTypeBM == nil` -/
  isEmpty : Bool
  /-- number of nodes (fuel for every descent) -/
  nodeCnt : Nat
  /-- `getNode` -/
  node : Nat → Except Err Node
  /-- `st.inner.LeafPrefixes != nil` -/
  leafPrefixesOn : Bool
  /-- the scan guard of `getGEPath` lets the trie through -/
  scanOK : Bool
  /-- `Leaves.get(ith)`; `none` when `Leaves == nil` -/
  leafBytes : Nat → Except Err (Option Bytes)

/-- `getLabelIdxOfKey`.  A 257-bit node reads the whole byte `key[i>>3]` that CONTAINS position
    `i` (for an even `i` — always, in a built trie — this is the two half-bytes from `i`). -/
def labelIdxOfKey (kn : List Nat) (i : Nat) (big : Bool) : Nat :=
  if i < kn.length then
    if big then 1 + (kn.getD (i - i % 2) 0 * 16 + kn.getD (i - i % 2 + 1) 0) else 1 + kn.getD i 0
  else 0

/-- number of labels below `ith` : `OnesCount(bm & Mask[ithBit])` / the rank difference -/
def rankLabels (labels : List Nat) (ith : Nat) : Nat := (labels.filter (· < ith)).length

/-- `getLeftChildID`: (id of the child left of label `ith`, whether label `ith` is present).
    The child of the r-th label has id `firstChild + r`; the Go code computes `firstChild - 1 + rank`. -/
def leftChildID (r : InnerRec) (ith : Nat) : Int × Bool :=
  ((r.firstChild : Int) - 1 + rankLabels r.labels ith, r.labels.contains ith)

/-- `bitstr.StrCmpUpto(key[i>>3:], prefix)` on half-bytes -/
def cmpUpto (a p : List Nat) : Ordering := lexCmp (a.take p.length) p

def wordSize (big : Bool) : Nat := if big then 2 else 1

/-- State of `GetID` when its loop ends without `return -1`. -/
structure Reached where
  id : Nat
  i : Nat
  /-- `qr.hasLeafPrefix`, `qr.leafPrefix` as left by the last `getNode` on a leaf
      (`none` if the loop ended on the `i == l` shortcut: no leaf was read) -/
  lp : Option Bytes
  deriving Repr, DecidableEq

/-- the loop of `GetID`; `none` = `return -1` -/
def getIDLoop (v : View) (kn : List Nat) : Nat → Nat → Nat → Except Err (Option Reached)
  | 0, _, _ => .error .fuel
  | fuel + 1, eqID, i => do
    match ← v.node eqID with
    | .leaf _ lp => return some { id := eqID, i := i, lp := lp }
    | .inner r =>
      let l := kn.length
      -- inner prefix
      let step : Except Err (Option Nat) :=
        match r.pref with
        | .stored p =>
          -- `key[i>>3:]` panics iff `i>>3 > len(key)`
          if i / 2 > l / 2 then .error (.panic "slice bounds out of range: key[i>>3:]")
          else if cmpUpto (kn.drop (i - i % 2)) p != .eq then .ok none
          else .ok (some (i - i % 2 + p.length))
        | .step n => .ok (some (i + n))
        | .none => .ok (some i)
      match ← step with
      | none => return none
      | some i =>
        if i > l then return none
        let (lch, has) := leftChildID r (labelIdxOfKey kn i r.big)
        if !has then return none
        let eqID := (lch + 1).toNat
        if i = l then return some { id := eqID, i := i, lp := none }
        getIDLoop v kn fuel eqID (i + wordSize r.big)

/-- `GetID`: `none` is -1. -/
def getID (v : View) (key : Bytes) : Except Err (Option Nat) := do
  if v.isEmpty then return none
  let kn := nibs key
  match ← getIDLoop v kn (v.nodeCnt + 1) 0 0 with
  | none => return none
  | some r =>
    if v.leafPrefixesOn then
      if r.i = kn.length then
        return (if r.lp.isSome then none else some r.id)
      else
        match r.lp with
        | none => return none
        | some lp =>
          if r.i / 2 > kn.length / 2 then .error (.panic "slice bounds out of range: key[i>>3:]")
          else return (if lp == key.drop (r.i / 2) then some r.id else none)
    else return some r.id

/-- `getLeaf`: the leaf's bytes (`none`: no values stored); panics on an inner node. -/
def getLeaf (v : View) (id : Nat) : Except Err (Option Bytes) := do
  match ← v.node id with
  | .inner _ => .error (.panic "impossible!!")
  | .leaf ith _ => v.leafBytes ith

/-- `Get`: `none` = (nil,false); `some b` = (value with encoded bytes `b` (or nil), true) -/
def get (v : View) (key : Bytes) : Except Err (Option (Option Bytes)) := do
  match ← getID v key with
  | none => return none
  | some id => return some (← getLeaf v id)

/-- `leftMost` (without path recording) -/
def leftMost (v : View) : Nat → Nat → Except Err Nat
  | 0, _ => .error .fuel
  | fuel + 1, id => do
    match ← v.node id with
    | .leaf _ _ => return id
    | .inner r => leftMost v fuel r.firstChild

/-- `rightMost` -/
def rightMost (v : View) : Nat → Nat → Except Err Nat
  | 0, _ => .error .fuel
  | fuel + 1, id => do
    match ← v.node id with
    | .leaf _ _ => return id
    | .inner r => rightMost v fuel (r.firstChild + r.labels.length - 1)

/-- `cmpLeafPrefix(tail, qr)` -/
def cmpLeafPrefix (v : View) (tail : Bytes) (lp : Option Bytes) : Ordering :=
  if v.leafPrefixesOn then cmpBytes tail (lp.getD []) else .eq

/-- ids during `searchID`; -1 is `none` -/
structure SearchSt where
  lID : Option Nat := none
  eqID : Option Nat := none
  rID : Option Nat := none
  i : Nat := 0
  lp : Option Bytes := none
  deriving Repr, DecidableEq

/-- the loop of `searchID` -/
def searchLoop (v : View) (kn : List Nat) : Nat → SearchSt → Nat → Except Err SearchSt
  | 0, _, _ => .error .fuel
  | fuel + 1, st, eqID => do
    match ← v.node eqID with
    | .leaf _ lp => return { st with eqID := some eqID, lp := lp }
    | .inner r =>
      let l := kn.length
      let i := st.i
      -- returns either a final state (break) or the new i
      let step : Except Err (Sum SearchSt Nat) :=
        match r.pref with
        | .stored p =>
          if i / 2 > l / 2 then .error (.panic "slice bounds out of range: key[i>>3:]") else
          match cmpUpto (kn.drop (i - i % 2)) p with
          | .eq => .ok (.inr (i - i % 2 + p.length))
          | .lt => .ok (.inl { st with rID := some eqID, eqID := none })
          | .gt => .ok (.inl { st with lID := some eqID, eqID := none })
        | .step n =>
          if i + n > l then .ok (.inl { st with rID := some eqID, eqID := none, i := i + n })
          else .ok (.inr (i + n))
        | .none => if i > l then .ok (.inl { st with rID := some eqID, eqID := none }) else .ok (.inr i)
      match ← step with
      | .inl fin => return fin
      | .inr i =>
        let (leftChild, has) := leftChildID r (labelIdxOfKey kn i r.big)
        let chID : Int := leftChild + (if has then 1 else 0)
        let rightChild : Int := chID + 1
        let leftMostChild : Int := r.firstChild
        let rightMostChild : Int := (r.firstChild : Int) + r.labels.length - 1
        let st := { st with i := i }
        let st := if leftChild ≥ leftMostChild ∧ leftChild ≤ rightMostChild
                  then { st with lID := some leftChild.toNat } else st
        let st := if rightChild ≥ leftMostChild ∧ rightChild ≤ rightMostChild
                  then { st with rID := some rightChild.toNat } else st
        if !has then return { st with eqID := none }
        if i = l then return { st with eqID := some chID.toNat }
        searchLoop v kn fuel { st with i := i + wordSize r.big } chID.toNat

/-- `searchID` -/
def searchID (v : View) (key : Bytes) : Except Err (Option Nat × Option Nat × Option Nat) := do
  if v.isEmpty then return (none, none, none)
  let kn := nibs key
  let l := kn.length
  let st ← searchLoop v kn (v.nodeCnt + 1) {} 0
  let st :=
    match st.eqID with
    | none => st
    | some eq =>
      if st.i ≤ l then
        match cmpLeafPrefix v (key.drop (st.i / 2)) st.lp with
        | .lt => { st with rID := some eq, eqID := none }
        | .gt => { st with lID := some eq, eqID := none }
        | .eq => st
      else st
  let lID ← match st.lID with
    | none => pure none
    | some id => do pure (some (← rightMost v (v.nodeCnt + 1) id))
  let rID ← match st.rID with
    | none => pure none
    | some id => do pure (some (← leftMost v (v.nodeCnt + 1) id))
  return (lID, st.eqID, rID)

/-- `RangeGet` -/
def rangeGet (v : View) (key : Bytes) : Except Err (Option (Option Bytes)) := do
  let (lID, eqID, _) ← searchID v key
  match eqID with
  | some id => return some (← getLeaf v id)
  | none =>
    match lID with
    | none => return none
    | some id => return some (← getLeaf v id)

/-- `Search`: each component `none` = nil interface (no such id), `some b` = leaf value bytes -/
def search (v : View) (key : Bytes) :
    Except Err (Option (Option Bytes) × Option (Option Bytes) × Option (Option Bytes)) := do
  let (lID, eqID, rID) ← searchID v key
  let f : Option Nat → Except Err (Option (Option Bytes)) := fun o =>
    match o with
    | none => pure none
    | some id => do pure (some (← getLeaf v id))
  return (← f lID, ← f eqID, ← f rID)

/-! ### the L1 view -/

def eltsTotal (elts : List Bytes) : Nat := (elts.map List.length).sum

def Trie1.view (t : Trie1) : View where
  isEmpty := t.nodes.size == 0
  nodeCnt := t.nodes.size
  node := fun id =>
    match t.nodes[id]? with
    | some n => .ok n
    | none => .error (.panic "node id out of range")
  leafPrefixesOn := t.opt.leaf
  scanOK := t.opt.inner && t.opt.leaf
  leafBytes := fun ith =>
    match t.elts with
    | none => .ok none
    | some es =>
      -- newVLenArray returns nil when every element is empty
      if eltsTotal es = 0 then .ok none else
      match es[ith]? with
      | some b => .ok (some b)
      | none => .error (.panic "out of bound")

/-- compiled form of `Trie1.view` (`@[csimp]` below): `eltsTotal es = 0` adds up the lengths of
    all values on every leaf read; `es.all List.isEmpty` stops at the first non-empty one -/
def Trie1.viewFast (t : Trie1) : View where
  isEmpty := t.nodes.size == 0
  nodeCnt := t.nodes.size
  node := fun id =>
    match t.nodes[id]? with
    | some n => .ok n
    | none => .error (.panic "node id out of range")
  leafPrefixesOn := t.opt.leaf
  scanOK := t.opt.inner && t.opt.leaf
  leafBytes := fun ith =>
    match t.elts with
    | none => .ok none
    | some es =>
      -- newVLenArray returns nil when every element is empty
      if es.all List.isEmpty then .ok none else
      match es[ith]? with
      | some b => .ok (some b)
      | none => .error (.panic "out of bound")

theorem eltsTotal_eq_zero_iff (es : List Bytes) : eltsTotal es = 0 ↔ es.all List.isEmpty = true := by
  unfold eltsTotal
  induction es with
  | nil => simp
  | cons e es ih =>
    simp only [List.map_cons, List.sum_cons, List.all_cons, Bool.and_eq_true]
    rw [← ih]
    cases e with
    | nil => simp
    | cons b bs => simp

@[csimp] theorem Trie1.view_eq_fast : @Trie1.view = @Trie1.viewFast := by
  funext t
  unfold Trie1.view Trie1.viewFast
  congr 1
  funext ith
  cases t.elts with
  | none => rfl
  | some es =>
    simp only
    by_cases h : eltsTotal es = 0
    · rw [if_pos h, if_pos ((eltsTotal_eq_zero_iff es).mp h)]
    · rw [if_neg h, if_neg (fun h' => h ((eltsTotal_eq_zero_iff es).mpr h'))]
