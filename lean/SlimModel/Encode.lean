import SlimModel.Basic
/-
  SlimModel.Encode — executable model of package `/repo/encode` (property C15).

  Every `encode.Encoder` of the Go package is a value of `Codec α`, a record of the four interface
  methods `Encode`, `Decode`, `GetSize`, `GetEncodedSize`:

    Go type                      model                      value type α
    encode.I8 I16 I32 I64        `I8 I16 I32 I64`           `Int`  (domain −2^(8w−1) ≤ v < 2^(8w−1))
    encode.U16 U32 U64           `U16 U32 U64`              `Nat`  (domain v < 2^(8w))
    encode.Int                   `NativeInt`                `Int`  (8 bytes: bits.UintSize = 64 here)
    encode.String16              `String16`                 `Bytes` (a Go string; domain |s| < 2^16)
    encode.Bytes{Size}           `BytesEnc size`            `Bytes` (domain |b| = Size)
    encode.Dummy{}               `Dummy`                    `Val`  (domain {nil})
    *encode.TypeEncoder          `TE bo ty`                 `Val`  (domain `InDom ty`)

  (there is no U8 encoder in the package.)

  What is and is not modelled:
  * A Go panic (slice bounds out of range on a short buffer, failed type check of TypeEncoder.Encode)
    is `Err.panic`.  A buffer is modelled by its contents only: Go bounds-checks `b[:size]` against
    `cap(b)`, the model against the length (i.e. buffers have cap = len; the harness passes such).
  * The dynamic type assertion `d.(uint16)` etc. of the integer/string encoders is what fixes the
    value type α; a value of the wrong Go type (always a panic) has no counterpart in the model.
    `Bytes{Size}` with a negative Size (Decode always panics) is not modelled (`size : Nat`).
  * TypeEncoder: the universe `Ty` covers the sized integer kinds, arrays and structs (all fields
    exported); bool, floats, complex, blank fields and pointer arguments are outside the universe.
-/
namespace Encode

def gopanic {α : Type} (msg : String) : Except Err α := .error (.panic msg)

/-- The four methods of the Go interface `encode.Encoder`. -/
structure Codec (α : Type) where
  /-- `Encode(v) []byte`. -/
  encode : α → Except Err Bytes
  /-- `Decode(b) (int, interface{})`: consumed size and value. -/
  decode : Bytes → Except Err (Nat × α)
  /-- `GetSize(v) int` (String16 panics on a non-string). -/
  getSize : α → Except Err Nat
  /-- `GetEncodedSize(b) int`. -/
  getEncodedSize : Bytes → Except Err Nat

/-! ### integer conversions -/

/-- Go conversion `uintN(v)` of a signed value to the unsigned type of `w` bytes
    (two's complement residue). -/
def toU (w : Nat) (v : Int) : Nat := (v % ((2 : Int) ^ (8 * w))).toNat

/-- Go conversion `intN(u)` of an unsigned `w`-byte value to the signed type. -/
def toS (w : Nat) (n : Nat) : Int :=
  if 2 * n < 2 ^ (8 * w) then (n : Int) else (n : Int) - (2 : Int) ^ (8 * w)

/-! ### generated fixed-width little-endian integer codecs (encode/int.go, int8.go, nativeint.go) -/

/-- `b := make([]byte, w); binary.LittleEndian.PutUintW(b, v)`. -/
def encodeU (w : Nat) (v : Nat) : Bytes := leBytes w v

/-- `s := b[:w]; binary.LittleEndian.UintW(s)`: panics when the buffer is shorter than `w`. -/
def decodeU (w : Nat) (b : Bytes) : Except Err (Nat × Nat) :=
  if b.length < w then gopanic "slice bounds out of range" else .ok (w, leVal (b.take w))

/-- `v := uintW(d.(intW)); PutUintW(b, v)`. -/
def encodeS (w : Nat) (v : Int) : Bytes := leBytes w (toU w v)

/-- `intW(binary.LittleEndian.UintW(b[:w]))`. -/
def decodeS (w : Nat) (b : Bytes) : Except Err (Nat × Int) :=
  if b.length < w then gopanic "slice bounds out of range" else .ok (w, toS w (leVal (b.take w)))

def uintCodec (w : Nat) : Codec Nat where
  encode v := .ok (encodeU w v)
  decode := decodeU w
  getSize _ := .ok w
  getEncodedSize _ := .ok w

def sintCodec (w : Nat) : Codec Int where
  encode v := .ok (encodeS w v)
  decode := decodeS w
  getSize _ := .ok w
  getEncodedSize _ := .ok w

def U16 : Codec Nat := uintCodec 2
def U32 : Codec Nat := uintCodec 4
def U64 : Codec Nat := uintCodec 8
/-- encode/int8.go: `[]byte{byte(v)}`, `int8(b[0])` (panics on the empty buffer). -/
def I8 : Codec Int := sintCodec 1
def I16 : Codec Int := sintCodec 2
def I32 : Codec Int := sintCodec 4
def I64 : Codec Int := sintCodec 8
/-- encode/nativeint.go: `bits.UintSize / 8 = 8` on this platform, the `size == 8` branch. -/
def NativeInt : Codec Int := sintCodec 8

/-! ### String16 (encode/encoder.go) -/

/-- `rst[0] = byte(l >> 8); rst[1] = byte(l); append(rst, s...)`.  Both conversions truncate. -/
def string16Encode (s : Bytes) : Bytes :=
  UInt8.ofNat (s.length / 256 % 256) :: UInt8.ofNat (s.length % 256) :: s

/-- `l := int(b[0])<<8 + int(b[1])` (panics when |b| < 2). -/
def string16Len (b : Bytes) : Except Err Nat :=
  match b with
  | b0 :: b1 :: _ => .ok (b0.toNat * 256 + b1.toNat)
  | _ => gopanic "index out of range"

def String16 : Codec Bytes where
  encode s := .ok (string16Encode s)
  decode b := do
    let l ← string16Len b
    -- ss := string(b[2 : 2+l])
    if b.length < 2 + l then gopanic "slice bounds out of range"
    else .ok (2 + l, (b.drop 2).take l)
  getSize s := .ok (2 + s.length)
  getEncodedSize b := do
    let l ← string16Len b
    .ok (2 + l)

/-! ### Bytes{Size} (encode/bytes.go) and Dummy (encode/dummy.go) -/

def BytesEnc (size : Nat) : Codec Bytes where
  -- `return d.([]byte)`: no length check
  encode d := .ok d
  -- `s := b[:c.Size]`
  decode b := if b.length < size then gopanic "slice bounds out of range" else .ok (size, b.take size)
  getSize _ := .ok size
  getEncodedSize _ := .ok size

/-- Values of the reflective encoders (`TypeEncoder`, `Dummy`) and of the generic array. -/
inductive Val where
  | int (v : Int)          -- a sized integer (signed or unsigned kind)
  | str (s : Bytes)        -- a Go string
  | bytes (b : Bytes)      -- a Go []byte
  | nil                    -- untyped nil
  | seq (vs : List Val)    -- array elements / struct fields in order
  deriving Repr, Inhabited

def Dummy : Codec Val where
  encode _ := .ok []
  decode _ := .ok (0, .nil)
  getSize _ := .ok 0
  getEncodedSize _ := .ok 0

/-! ### TypeEncoder (encode/type_encoder.go) over an inductive universe of fixed-size types -/

inductive BO where
  | le | be
  deriving Repr, DecidableEq, Inhabited

/-- Fixed-size types accepted by `encoding/binary`: sized integers of `w` bytes
    (`w ∈ {1,2,4,8}` in Go; the model is uniform in `w`), arrays, structs. -/
inductive Ty where
  | prim (signed : Bool) (w : Nat)
  | array (n : Nat) (t : Ty)
  | struct (fs : List Ty)
  deriving Repr, Inhabited

namespace Ty
abbrev u8 := prim false 1
abbrev u16 := prim false 2
abbrev u32 := prim false 4
abbrev u64 := prim false 8
abbrev i8 := prim true 1
abbrev i16 := prim true 2
abbrev i32 := prim true 4
abbrev i64 := prim true 8
end Ty

mutual
/-- `binary.Size`: no padding, arrays multiply, structs add. -/
def Ty.size : Ty → Nat
  | .prim _ w => w
  | .array n t => n * t.size
  | .struct fs => sizeFields fs
def sizeFields : List Ty → Nat
  | [] => 0
  | t :: ts => t.size + sizeFields ts
end

/-- `order.PutUintW`. -/
def intBytes (bo : BO) (w n : Nat) : Bytes :=
  match bo with
  | .le => leBytes w n
  | .be => beBytes w n

/-- `order.UintW`. -/
def intVal (bo : BO) (b : Bytes) : Nat :=
  match bo with
  | .le => leVal b
  | .be => beVal b

/-- Encode `n` consecutive array elements with the element encoder `f`;
    a value with a different element count is a different Go type. -/
def encRep (f : Val → Except Err Bytes) : Nat → List Val → Except Err Bytes
  | 0, [] => .ok []
  | n + 1, v :: vs => do
    let a ← f v
    let r ← encRep f n vs
    pure (a ++ r)
  | _, _ => gopanic "different type from TypeEncoder.Type"

mutual
/-- `binary.Write(buf, order, d)` for a value of type `t`: integers in the configured byte
    order (signed ones through their two's complement), arrays and structs element by element. -/
def tyEncode (bo : BO) : Ty → Val → Except Err Bytes
  | .prim _ w, .int v => .ok (intBytes bo w (toU w v))
  | .array n t, .seq vs => encRep (tyEncode bo t) n vs
  | .struct fs, .seq vs => tyEncodeFields bo fs vs
  | _, _ => gopanic "different type from TypeEncoder.Type"
def tyEncodeFields (bo : BO) : List Ty → List Val → Except Err Bytes
  | [], [] => .ok []
  | t :: ts, v :: vs => do
    let a ← tyEncode bo t v
    let r ← tyEncodeFields bo ts vs
    pure (a ++ r)
  | _, _ => gopanic "different type from TypeEncoder.Type"
end

/-- Decode `n` consecutive elements with `f`, threading the rest of the buffer. -/
def decRep (f : Bytes → Except Err (Val × Bytes)) : Nat → Bytes → Except Err (List Val × Bytes)
  | 0, b => .ok ([], b)
  | n + 1, b => do
    let (v, b') ← f b
    let (vs, b'') ← decRep f n b'
    pure (v :: vs, b'')

mutual
/-- `binary.Read` into a fresh value of type `t`; returns the value and the unread rest.
    Running out of bytes is `io.ErrUnexpectedEOF`, which `TypeEncoder.Decode` turns into a panic. -/
def tyDecode (bo : BO) : Ty → Bytes → Except Err (Val × Bytes)
  | .prim s w, b =>
    if b.length < w then gopanic "unexpected EOF"
    else
      let n := intVal bo (b.take w)
      .ok (.int (if s then toS w n else (n : Int)), b.drop w)
  | .array n t, b => do
    let (vs, r) ← decRep (tyDecode bo t) n b
    pure (.seq vs, r)
  | .struct fs, b => do
    let (vs, r) ← tyDecodeFields bo fs b
    pure (.seq vs, r)
def tyDecodeFields (bo : BO) : List Ty → Bytes → Except Err (List Val × Bytes)
  | [], b => .ok ([], b)
  | t :: ts, b => do
    let (v, b') ← tyDecode bo t b
    let (vs, b'') ← tyDecodeFields bo ts b'
    pure (v :: vs, b'')
end

/-- `*TypeEncoder{Endian: bo, Type: t, Size: binary.Size(t)}`. -/
def TE (bo : BO) (t : Ty) : Codec Val where
  encode v := tyEncode bo t v
  -- `b = b[0:m.Size]; binary.Read(bytes.NewBuffer(b), m.Endian, v)`
  decode b :=
    if b.length < t.size then gopanic "slice bounds out of range"
    else do
      let (v, _) ← tyDecode bo t (b.take t.size)
      pure (t.size, v)
  getSize _ := .ok t.size
  getEncodedSize _ := .ok t.size

/-! ### a closed description of encoders (for the generic array and the driver) -/

inductive Enc where
  | i8 | i16 | i32 | i64 | u16 | u32 | u64 | int
  | str16
  | bytes (size : Nat)
  | dummy
  | typ (bo : BO) (t : Ty)
  deriving Repr, Inhabited

def liftInt (c : Codec Int) : Codec Val where
  encode | .int v => c.encode v | _ => gopanic "interface conversion"
  decode b := do let (n, v) ← c.decode b; pure (n, .int v)
  getSize | .int v => c.getSize v | _ => c.getSize 0   -- the integer codecs ignore the argument
  getEncodedSize := c.getEncodedSize

def liftNat (c : Codec Nat) : Codec Val where
  encode | .int v => if v < 0 then gopanic "interface conversion" else c.encode v.toNat
         | _ => gopanic "interface conversion"
  decode b := do let (n, v) ← c.decode b; pure (n, .int (v : Int))
  getSize | .int v => c.getSize v.toNat | _ => c.getSize 0   -- ignores the argument
  getEncodedSize := c.getEncodedSize

def liftStr (c : Codec Bytes) : Codec Val where
  encode | .str s => c.encode s | _ => gopanic "interface conversion"
  decode b := do let (n, v) ← c.decode b; pure (n, .str v)
  getSize | .str s => c.getSize s | _ => gopanic "interface conversion"
  getEncodedSize := c.getEncodedSize

def liftBytes (c : Codec Bytes) : Codec Val where
  encode | .bytes s => c.encode s | _ => gopanic "interface conversion"
  decode b := do let (n, v) ← c.decode b; pure (n, .bytes v)
  getSize | .bytes s => c.getSize s | _ => c.getSize []   -- ignores the argument
  getEncodedSize := c.getEncodedSize

def Enc.codec : Enc → Codec Val
  | .i8 => liftInt I8
  | .i16 => liftInt I16
  | .i32 => liftInt I32
  | .i64 => liftInt I64
  | .u16 => liftNat U16
  | .u32 => liftNat U32
  | .u64 => liftNat U64
  | .int => liftInt NativeInt
  | .str16 => liftStr String16
  | .bytes n => liftBytes (BytesEnc n)
  | .dummy => Dummy
  | .typ bo t => TE bo t

/-! ### domains -/

def InU (w : Nat) (v : Nat) : Prop := v < 2 ^ (8 * w)
def InS (w : Nat) (v : Int) : Prop := -(2 : Int) ^ (8 * w - 1) ≤ v ∧ v < (2 : Int) ^ (8 * w - 1)

instance (w v : Nat) : Decidable (InU w v) := by unfold InU; exact inferInstance
instance (w : Nat) (v : Int) : Decidable (InS w v) := by unfold InS; exact inferInstance

/-- `v` is a value of the Go type `t`: the right shape and every integer in its range. -/
inductive InDom : Ty → Val → Prop where
  | unsigned {w : Nat} {v : Int} : 0 ≤ v → v < (2 : Int) ^ (8 * w) → InDom (.prim false w) (.int v)
  | signed {w : Nat} {v : Int} : 1 ≤ w → InS w v → InDom (.prim true w) (.int v)
  | array {n : Nat} {t : Ty} {vs : List Val} :
      vs.length = n → (∀ v ∈ vs, InDom t v) → InDom (.array n t) (.seq vs)
  | structNil : InDom (.struct []) (.seq [])
  | structCons {t : Ty} {ts : List Ty} {v : Val} {vs : List Val} :
      InDom t v → InDom (.struct ts) (.seq vs) → InDom (.struct (t :: ts)) (.seq (v :: vs))

/-! ### encoder lookup (encode/encoder.go: `EncoderByKind`, `EncoderOf`, `GetSliceEltEncoder`) -/

/-- the `reflect.Kind`s a caller can present (`invalid` = the kind of an untyped `nil`) -/
inductive Kind where
  | invalid | bool | int | int8 | int16 | int32 | int64 | uint | uint8 | uint16 | uint32 | uint64
  | float32 | float64 | string | struct | ptr
  | slice (elem : Kind)
  deriving Repr, Inhabited, DecidableEq

/-- the two errors of the lookup functions: `ErrUnknownEltType`, `ErrNotSlice` -/
inductive LookupErr where
  | unknownEltType | notSlice
  deriving Repr, DecidableEq

/-- `EncoderByKind(k)`: a `switch` with three cases and a `default` that fails. -/
def encoderByKind : Kind → Except LookupErr Enc
  | .uint16 => .ok .u16
  | .uint32 => .ok .u32
  | .uint64 => .ok .u64
  | _ => .error .unknownEltType

/-- `EncoderOf(e)`: `EncoderByKind(reflect.ValueOf(e).Kind())`; the argument is the kind of `e`. -/
def encoderOf (k : Kind) : Except LookupErr Enc := encoderByKind k

/-- `GetSliceEltEncoder(s)`: `ErrNotSlice` unless `s` is a slice, then by the element kind. -/
def getSliceEltEncoder : Kind → Except LookupErr Enc
  | .slice e => encoderByKind e
  | _ => .error .notSlice

end Encode
